----------------------------- MODULE SchemaDecl -----------------------------
(***************************************************************************)
(* C02, stated declaratively and independently of the code's structure:    *)
(*                                                                         *)
(*   "Unserialize accepts a raw value exactly when it denotes - under the  *)
(*    SDK's fixed lenient conversions - a value of the schema's type that  *)
(*    satisfies every declared constraint; the accepted result is exactly  *)
(*    the denoted value.  Validate and Serialize enforce the same          *)
(*    constraints on values that are already in native form."              *)
(*                                                                         *)
(* Denotes  = the fixed lenient conversions (DESIGN appendix B, row by     *)
(*            row): which native value, if any, a raw value stands for;    *)
(* Satisfies = the declared constraints on a native value.                 *)
(*                                                                         *)
(* A denotation is one of                                                  *)
(*   [d |-> "some", v |-> native]     denotes exactly this value           *)
(*   [d |-> "none"]                   denotes nothing                      *)
(*   [d |-> "open"]                   the statement leaves it open         *)
(*   [d |-> "open", v |-> native]     open, but if accepted then as this   *)
(*                                    value ("never a wrong number")       *)
(* Open cases: lenient unit strings (C16), values of defined (named) Go    *)
(* types handed to Unserialize of numeric/bool/any schemas (no decoder     *)
(* produces them; appendix B fixes only the string row), two raw map keys  *)
(* denoting one key.                                                       *)
(*                                                                         *)
(* TLC invariants (SchemaMC): Exact and SamePaths - the operational        *)
(* operators of SchemaSem agree with this statement on the whole universe. *)
(***************************************************************************)
EXTENDS SchemaSem

DSome(x) == [d |-> "some", v |-> x]
DNone == [d |-> "none"]
DOpen == [d |-> "open"]
DOpenV(x) == [d |-> "open", v |-> x]
DHasV(r) == "v" \in DOMAIN r

IsNamed(raw) == raw.k \in {"bool", "int", "float", "str"} /\ raw.rep = "named"

\* ------------------------------------------------------------------ appendix B, row "integer"
\* every signed/unsigned width within int64; floats iff integral and within int64 (NaN, Inf,
\* 2^63 denote nothing); bool -> 0/1; strings: unit grammar with units, else base-10 syntax
DenUnitString(t, wantInt) ==
    LET r == UnitReading(t) IN
    IF r.ok = "no" THEN DNone
    ELSE IF r.ok = "odd" THEN (IF wantInt THEN DNone ELSE DOpen)
    ELSE LET integral == r.h % 2 = 0
             val == IF wantInt THEN I64(r.h \div 2) ELSE F64(r.h)
         IN IF wantInt /\ (~integral \/ ~FitsI64(r.h \div 2)) THEN DNone
            ELSE IF r.ok = "yes" THEN DSome(val) ELSE DOpenV(val)

DenInt(raw, units) ==
    IF IsNamed(raw) THEN (IF raw.k = "str" THEN DNone ELSE DOpen)
    ELSE IF raw.k = "int" /\ FitsI64(raw.v) THEN DSome(I64(raw.v))
    ELSE IF raw.k = "float" /\ raw.v % 2 = 0 /\ FitsI64(raw.v \div 2) THEN DSome(I64(raw.v \div 2))
    ELSE IF raw.k = "bool" THEN DSome(I64(IF raw.v THEN 1 ELSE 0))
    ELSE IF raw.k = "str" /\ units.some THEN DenUnitString(raw.v, TRUE)
    ELSE IF raw.k = "str" /\ Tok[raw.v].int.ok THEN DSome(I64(Tok[raw.v].int.v))
    ELSE DNone

\* row "float": every integer width (as float64), floats as is (NaN/Inf denote themselves),
\* bool -> 0/1, strings: unit grammar with units, else strconv.ParseFloat syntax
DenFloat(raw, units) ==
    IF IsNamed(raw) THEN (IF raw.k = "str" THEN DNone ELSE DOpen)
    ELSE IF raw.k = "int" THEN DSome(F64(2 * raw.v))
    ELSE IF raw.k = "float" THEN DSome(F64(raw.v))
    ELSE IF raw.k = "fspecial" THEN DSome(FS("float64", raw.v))
    ELSE IF raw.k = "bool" THEN DSome(F64(IF raw.v THEN 2 ELSE 0))
    ELSE IF raw.k = "str" /\ units.some THEN DenUnitString(raw.v, FALSE)
    ELSE IF raw.k = "str" /\ Tok[raw.v].flt.ok THEN
            (IF Tok[raw.v].flt.cls = "num" THEN DSome(F64(Tok[raw.v].flt.h)) ELSE DSome(FS("float64", Tok[raw.v].flt.cls)))
    ELSE DNone

\* row "string": string; every integer width -> decimal; floats -> %f; nothing else (no bool,
\* no nil, no named string at Unserialize)
DenString(raw) ==
    IF IsNamed(raw) THEN DNone
    ELSE IF raw.k = "str" THEN DSome(raw)
    ELSE IF raw.k = "int" THEN DSome(Str(DecTok[raw.v]))
    ELSE IF raw.k = "float" THEN DSome(Str(FTok[raw.v]))
    ELSE IF raw.k = "fspecial" THEN DSome(Str(FSpecialName(raw.v)))
    ELSE DNone

\* row "bool": bool; integers 0/1 of any width; the case-insensitive words
DenBool(raw) ==
    IF IsNamed(raw) THEN (IF raw.k = "str" THEN DNone ELSE DOpen)
    ELSE IF raw.k = "bool" THEN DSome(raw)
    ELSE IF raw.k = "int" /\ raw.v \in {0, 1} THEN DSome(B(raw.v = 1))
    ELSE IF raw.k = "str" /\ Tok[raw.v].bw.some THEN DSome(B(Tok[raw.v].bw.v))
    ELSE DNone

\* row "pattern": anything the string row accepts, if it compiles as a Go regexp
DenPattern(raw) ==
    LET d == DenString(raw) IN
    IF d.d = "some" /\ Tok[d.v.v].re THEN DSome(Re(d.v.v)) ELSE DNone

\* ------------------------------------------------------------------ Denotes, recursively
Lift(ds, mk(_)) ==
    IF \E i \in DOMAIN ds : ds[i].d = "none" THEN DNone
    ELSE IF \E i \in DOMAIN ds : ds[i].d = "open" THEN DOpen
    ELSE DSome(mk([i \in DOMAIN ds |-> ds[i].v]))

RECURSIVE Denotes(_, _), DenAny(_)
\* row "any": nil-free trees of bool, any int/float width (normalised to int64/float64),
\* string, slices, maps with keys of those kinds; everything else denotes nothing
DenAny(raw) ==
    IF IsNamed(raw) THEN DOpen
    ELSE IF raw.k \in {"bool", "str", "fspecial"} THEN DSome(IF raw.k = "fspecial" THEN FS("float64", raw.v) ELSE raw)
    ELSE IF raw.k = "int" THEN (IF FitsI64(raw.v) THEN DSome(I64(raw.v)) ELSE DNone)
    ELSE IF raw.k = "float" THEN DSome(F64(raw.v))
    ELSE IF raw.k = "list" THEN
            LET ds == [i \in 1..Len(raw.v) |-> DenAny(raw.v[i])]
                mk(vs) == L("any", vs)
            IN Lift(ds, mk)
    ELSE IF raw.k = "map" THEN
            LET ks == [i \in 1..Len(raw.v) |-> DenAny(raw.v[i][1])]
                ws == [i \in 1..Len(raw.v) |-> DenAny(raw.v[i][2])]
                all == ks \o ws
                n == Len(raw.v)
            IN IF \E i \in 1..(2 * n) : all[i].d = "none" THEN DNone
               ELSE IF \E i \in 1..(2 * n) : all[i].d = "open" THEN DOpen
               ELSE IF \E i, j \in 1..n : i # j /\ EqV(ks[i].v, ks[j].v) THEN DOpen
               ELSE DSome(M("any_any", [i \in 1..n |-> <<ks[i].v, ws[i].v>>]))
    ELSE DNone

Denotes(s, raw) ==
    CASE s.kind = "int" -> DenInt(raw, s.units)
      [] s.kind = "float" -> DenFloat(raw, s.units)
      [] s.kind = "string" -> DenString(raw)
      [] s.kind = "bool" -> DenBool(raw)
      [] s.kind = "pattern" -> DenPattern(raw)
      [] s.kind = "enum_int" -> DenInt(raw, s.units)              \* the integer row, then membership
      [] s.kind = "enum_string" ->                                  \* the string row; native type T
            LET d == DenString(raw) IN
            IF d.d = "some" THEN DSome(S(IF s.typed THEN "named" ELSE "string", d.v.v)) ELSE d
      [] s.kind = "any" -> DenAny(raw)
      [] s.kind = "list" ->     \* any slice of accepted items
            IF raw.k # "list" THEN DNone
            ELSE LET ds == [i \in 1..Len(raw.v) |-> Denotes(s.items, raw.v[i])]
                     mk(vs) == L("typed", vs)
                 IN Lift(ds, mk)
      [] s.kind = "map" ->      \* any map whose keys/values are accepted
            IF raw.k # "map" THEN DNone
            ELSE LET n == Len(raw.v)
                     ks == [i \in 1..n |-> Denotes(s.keys, raw.v[i][1])]
                     ws == [i \in 1..n |-> Denotes(s.values, raw.v[i][2])]
                     all == ks \o ws
                 IN IF \E i \in 1..(2 * n) : all[i].d = "none" THEN DNone
                    ELSE IF \E i \in 1..(2 * n) : all[i].d = "open" THEN DOpen
                    ELSE IF \E i, j \in 1..n : i # j /\ EqModRep(ks[i].v, ks[j].v) THEN DOpen   \* unspecified by C02
                    ELSE DSome(M("typed", [i \in 1..n |-> <<ks[i].v, ws[i].v>>]))

\* ------------------------------------------------------------------ Satisfies
\* the declared constraints, on a native value of the schema's type
RECURSIVE Satisfies(_, _)
Satisfies(s, v) ==
    CASE s.kind = "int" -> (s.min.some => s.min.v <= v.v) /\ (s.max.some => v.v <= s.max.v)
      [] s.kind = "float" ->
            \* a NaN satisfies no bound; infinities are ordinary extended reals
            IF v.k = "fspecial" THEN
                 /\ (s.min.some => v.v = "+inf")
                 /\ (s.max.some => v.v = "-inf")
            ELSE (s.min.some => s.min.v <= v.v) /\ (s.max.some => v.v <= s.max.v)
      [] s.kind = "string" ->
            /\ (s.min.some => s.min.v <= Tok[v.v].len)
            /\ (s.max.some => Tok[v.v].len <= s.max.v)
            /\ (s.pattern.some => Tok[v.v].pat[s.pattern.v])
      [] s.kind \in {"bool", "pattern", "any"} -> TRUE
      [] s.kind \in {"enum_int", "enum_string"} -> v.v \in Range(s.values)
      [] s.kind = "list" ->
            /\ (s.min.some => s.min.v <= Len(v.v)) /\ (s.max.some => Len(v.v) <= s.max.v)
            /\ \A i \in 1..Len(v.v) : Satisfies(s.items, v.v[i])
      [] s.kind = "map" ->
            /\ (s.min.some => s.min.v <= Len(v.v)) /\ (s.max.some => Len(v.v) <= s.max.v)
            /\ \A i \in 1..Len(v.v) : Satisfies(s.keys, v.v[i][1]) /\ Satisfies(s.values, v.v[i][2])

\* ------------------------------------------------------------------ native values of a schema's type
RECURSIVE IsNative(_, _), IsAnyTree(_)
IsAnyTree(v) ==
    CASE v.k \in {"bool", "str"} -> v.rep \in {"bool", "string"}
      [] v.k = "int" -> v.rep = "int64" /\ FitsI64(v.v)
      [] v.k \in {"float", "fspecial"} -> v.rep = "float64"
      [] v.k = "list" -> \A i \in 1..Len(v.v) : IsAnyTree(v.v[i])
      [] v.k = "map" ->
            /\ \A i \in 1..Len(v.v) : v.v[i][1].k \in {"bool", "str", "int", "float"} /\ IsAnyTree(v.v[i][1]) /\ IsAnyTree(v.v[i][2])
            /\ \A i, j \in 1..Len(v.v) : i # j => ~EqV(v.v[i][1], v.v[j][1])
      [] v.k \in {"nil", "re", "junk"} -> FALSE
IsNative(s, v) ==
    CASE s.kind \in {"int", "enum_int"} -> v.k = "int" /\ v.rep = "int64" /\ FitsI64(v.v)
      [] s.kind = "float" -> v.k \in {"float", "fspecial"} /\ v.rep = "float64"
      [] s.kind = "string" -> v.k = "str" /\ v.rep = "string"
      [] s.kind = "bool" -> v.k = "bool" /\ v.rep = "bool"
      [] s.kind = "pattern" -> v.k = "re"
      [] s.kind = "enum_string" -> v.k = "str" /\ v.rep = (IF s.typed THEN "named" ELSE "string")
      [] s.kind = "any" -> IsAnyTree(v)
      [] s.kind = "list" -> v.k = "list" /\ \A i \in 1..Len(v.v) : IsNative(s.items, v.v[i])
      [] s.kind = "map" ->
            /\ v.k = "map"
            /\ \A i \in 1..Len(v.v) : IsNative(s.keys, v.v[i][1]) /\ IsNative(s.values, v.v[i][2])
            /\ \A i, j \in 1..Len(v.v) : i # j => ~EqModRep(v.v[i][1], v.v[j][1])

\* the wire form of a native value (what Serialize has to emit)
RECURSIVE WireOf(_, _)
WireOf(s, v) ==
    CASE s.kind \in {"int", "float", "string", "bool", "enum_int"} -> v
      [] s.kind \in {"enum_string", "pattern"} -> Str(v.v)
      [] s.kind = "any" -> v
      [] s.kind = "list" -> L("any", [i \in 1..Len(v.v) |-> WireOf(s.items, v.v[i])])
      [] s.kind = "map" -> M("any_any", [i \in 1..Len(v.v) |-> <<WireOf(s.keys, v.v[i][1]), WireOf(s.values, v.v[i][2])>>])

\* ------------------------------------------------------------------ the statement as expected outcomes
DeclUnser(s, raw) ==
    LET d == Denotes(s, raw) IN
    CASE d.d = "none" -> Rej
      [] d.d = "some" -> IF Satisfies(s, d.v) THEN Ok(d.v) ELSE Rej
      [] d.d = "open" -> IF DHasV(d) THEN (IF Satisfies(s, d.v) THEN UnspecV(d.v) ELSE Rej) ELSE Unspec

\* Validate / Serialize: the statement speaks about native values only; what they do with
\* other Go values is not an exactness claim (C04: they must return)
DeclValid(s, x) == IF IsNative(s, x) THEN (IF Satisfies(s, x) THEN OkU ELSE Rej) ELSE Unspec
DeclSer(s, x) == IF IsNative(s, x) THEN (IF Satisfies(s, x) THEN Ok(WireOf(s, x)) ELSE Rej) ELSE Unspec

Declared(s, op, x) ==
    CASE op = "unser" -> DeclUnser(s, x)
      [] op = "valid" -> DeclValid(s, x)
      [] op = "ser" -> DeclSer(s, x)
      [] op = "compat" -> Unspec          \* no property states the acceptance set of data-mode compatibility

\* declared outcome (accept / reject / open) of every element below a container argument, as a tree
\* [ok, kids] (list: one node per item; map: key node, value node, key node, ...): lets the harness
\* name the position where code and statement first diverge (signature kind_at_fault)
RECURSIVE Sub(_, _, _)
SubNode(s, op, x) == [ok |-> Declared(s, op, x).ok, kids |-> Sub(s, op, x)]
Sub(s, op, x) ==
    CASE s.kind = "list" /\ x.k = "list" -> [i \in 1..Len(x.v) |-> SubNode(s.items, op, x.v[i])]
      [] s.kind = "any" /\ x.k = "list" -> [i \in 1..Len(x.v) |-> SubNode(s, op, x.v[i])]
      [] s.kind \in {"map", "any"} /\ x.k = "map" ->
            [j \in 1..(2 * Len(x.v)) |->
                LET i == (j + 1) \div 2
                    ks == IF s.kind = "map" THEN s.keys ELSE s
                    ws == IF s.kind = "map" THEN s.values ELSE s
                IN IF j % 2 = 1 THEN SubNode(ks, op, x.v[i][1]) ELSE SubNode(ws, op, x.v[i][2])]
      [] OTHER -> <<>>

\* ------------------------------------------------------------------ the invariants
\* operational refines declarative: equal wherever the statement is definite
Refines(o, d) ==
    CASE d.ok = "yes" -> o.ok = "yes" /\ (HasV(d) => HasV(o) /\ EqModRep(o.v, d.v))
      [] d.ok = "no" -> o.ok = "no"
      [] d.ok = "maybe" -> (HasV(d) /\ o.ok = "yes" /\ HasV(o)) => EqModRep(o.v, d.v)

Exact(s, raw) == Refines(Unser(s, raw), DeclUnser(s, raw))
SamePaths(s, v) ==
    IsNative(s, v) =>
        /\ (Valid(s, v).ok = "yes") = Satisfies(s, v)
        /\ Valid(s, v).ok \in {"yes", "no"}
        /\ Refines(Ser(s, v), DeclSer(s, v))
        /\ Ser(s, v).ok \in {"yes", "no"}
=============================================================================
