------------------------------ MODULE ErrPath ------------------------------
(***************************************************************************)
(* C17 - a rejection names the offending element.                          *)
(*                                                                         *)
(*   "When Unserialize or Validate rejects a value because of exactly one  *)
(*    offending element - a leaf of the wrong type or out of bounds, an    *)
(*    undeclared key, or a property whose presence rule is violated - the  *)
(*    returned error identifies that element: it is a constraint error     *)
(*    whose path is the sequence of property names, list indices and map   *)
(*    keys leading from the root to the element."                          *)
(*                                                                         *)
(* A CASE is a schema with a valid input and the same input with a SINGLE  *)
(* fault, in raw form (for Unserialize) and in native form (for Validate): *)
(*   [s, good, bad, ngood, nbad : Opt, path : <<segment..>>, fault, key]   *)
(* Cases are built inside out: a leaf case (the product leaf kind x fault   *)
(* kind) is wrapped in containers - list, map, object property, one-of     *)
(* member - each of which prepends its segment: the list index, the map    *)
(* key, the property name (a one-of adds nothing: its member's property    *)
(* does).  ExpectedPath is the path of the finished case.                  *)
(*                                                                         *)
(* For an undeclared key the offending element is the key inside its       *)
(* object: the path is that of the object, optionally followed by the key  *)
(* (field key), and the message has to name the key.                       *)
(* For a violated presence rule the element is the property carrying the   *)
(* rule.                                                                    *)
(***************************************************************************)
EXTENDS SchemaDecl

Case(s, good, bad, ngood, nbad, fault, key) ==
    [s |-> s, good |-> good, bad |-> bad, ngood |-> ngood, nbad |-> nbad, path |-> <<>>, fault |-> fault, key |-> key, st |-> FALSE]
\* a leaf whose raw and native forms coincide
Same(s, good, bad, fault) == Case(s, good, bad, good, Some(bad), fault, "")
\* a fault that exists in raw form only (a representation no native value has)
RawOnly(s, good, ngood, bad, fault) == Case(s, good, bad, ngood, None, fault, "")

PTA == IntS(Some(1), Some(2), None)
PTB == StringS(Some(1), Some(2), Some("lower"))
PTF == FloatS(Some(2), Some(4), None)
PES == EnumStrS(<<"a", "b">>, FALSE)
PEI == EnumIntS(<<1, 2>>, None)
ObjReq == ObjectS("L", << Prop("a", PTA, TRUE), Prop("b", StringS(None, None, None), FALSE) >>, "map", FALSE)
ObjConf == ObjectS("L", << Prop("a", PTA, FALSE), PropS("b", StringS(None, None, None), FALSE, <<>>, <<>>, <<"a">>, None, FALSE, FALSE) >>, "map", FALSE)
ObjRif == ObjectS("L", << Prop("a", PTA, FALSE), PropS("b", StringS(None, None, None), FALSE, <<"a">>, <<>>, <<>>, None, FALSE, FALSE) >>, "map", FALSE)
ObjRifn == ObjectS("L", << Prop("a", PTA, FALSE), PropS("b", StringS(None, None, None), FALSE, <<>>, <<"a">>, <<>>, None, FALSE, FALSE) >>, "map", FALSE)
Obj(ps) == M("string_any", ps)
\* objects WITHOUT properties: every key is undeclared (a pure tag member of a one-of with a non-inlined discriminator)
ObjEmpty == ObjectS("E", <<>>, "map", FALSE)
OneOfTag == OneOfS("string", "type", FALSE, << <<"a", ObjectS("M", <<>>, "map", FALSE)>>,
                                               <<"b", ObjectS("N", << Prop("b", StringS(None, None, None), FALSE) >>, "map", FALSE)>> >>)
WithKey(c, k) == [c EXCEPT !.key = k]
WithPath(c, p) == [c EXCEPT !.path = p]

LeafCases ==
    { Same(PTA, I64(1), I64(0), "below_min"), Same(PTA, I64(1), I64(3), "above_max"),
      Same(PTA, I64(1), Str("a"), "wrong_type"), Same(PTA, I64(1), Nil, "wrong_type"), Same(PTA, I64(1), L("any", <<>>), "wrong_type"),
      RawOnly(PTA, I("uint64", 1), I64(1), I("uint64", IMax + 1), "wrong_type"), RawOnly(PTA, Str("1"), I64(1), Str("1.5"), "wrong_type"),
      Same(PTB, Str("a"), Str("#empty"), "below_min"), Same(PTB, Str("a"), Str("abc"), "above_max"), Same(PTB, Str("a"), Str("A"), "pattern_miss"),
      Same(PTB, Str("a"), B(TRUE), "wrong_type"), Same(PTB, Str("a"), Nil, "wrong_type"),
      Same(PTF, F64(2), F64(0), "below_min"), Same(PTF, F64(2), F64(10), "above_max"), Same(PTF, F64(2), Str("a"), "wrong_type"),
      Same(BoolS, B(TRUE), Str("a"), "wrong_type"), Same(BoolS, B(TRUE), I64(2), "wrong_type"),
      Same(PES, Str("a"), Str("c"), "not_in_enum"), Same(PES, Str("a"), B(TRUE), "wrong_type"),
      Same(PEI, I64(1), I64(3), "not_in_enum"), Same(PEI, I64(1), Str("a"), "wrong_type"),
      Case(PatternS, Str("a"), Str("["), Re("a"), None, "bad_pattern", ""), Case(PatternS, Str("a"), B(TRUE), Re("a"), Some(B(TRUE)), "wrong_type", ""),
      Same(AnyS, I64(1), Nil, "wrong_type"), Same(AnyS, I64(1), J("ptr"), "wrong_type"),
      \* numbers with units given a string the unit grammar cannot read
      RawOnly(IntS(None, None, Some("sec")), Str("1s"), I64(1), Str("1x"), "unit_syntax"),
      RawOnly(IntS(None, None, Some("sec")), Str("1s"), I64(1), Str("-1s"), "unit_syntax"),
      RawOnly(IntS(None, None, Some("sec")), Str("1s"), I64(1), Str("#empty"), "unit_syntax"),
      RawOnly(IntS(None, None, Some("sec")), Str("1s"), I64(1), Str("a"), "unit_syntax"),
      RawOnly(FloatS(None, None, Some("sec")), Str("1s"), F64(2), Str("1x"), "unit_syntax"),
      RawOnly(FloatS(None, None, Some("sec")), Str("1s"), F64(2), Str("#empty"), "unit_syntax"),
      RawOnly(FloatS(None, None, Some("sec")), Str("1s"), F64(2), Str("a"), "unit_syntax"),
      \* a map key out of bounds / not in the enum: the offending element is the key
      WithPath(Case(MapS(IntS(Some(1), Some(3), None), PTA, None, None, FALSE), M("any_any", << <<I64(1), I64(1)>> >>),
                    M("any_any", << <<I64(1), I64(1)>>, <<I64(-2), I64(1)>> >>), M("typed", << <<I64(1), I64(1)>> >>),
                    Some(M("typed", << <<I64(1), I64(1)>>, <<I64(-2), I64(1)>> >>)), "key_below_min", ""), <<"-2">>),
      WithPath(Case(MapS(IntS(Some(1), Some(3), None), PTA, None, None, FALSE), M("any_any", << <<I64(1), I64(1)>> >>),
                    M("any_any", << <<I64(1), I64(1)>>, <<I64(4), I64(1)>> >>), M("typed", << <<I64(1), I64(1)>> >>),
                    Some(M("typed", << <<I64(1), I64(1)>>, <<I64(4), I64(1)>> >>)), "key_above_max", ""), <<"4">>),
      WithPath(Case(MapS(EnumIntS(<<1, 2>>, None), PTA, None, None, FALSE), M("any_any", << <<I64(1), I64(1)>> >>),
                    M("any_any", << <<I64(1), I64(1)>>, <<I64(3), I64(1)>> >>), M("typed", << <<I64(1), I64(1)>> >>),
                    Some(M("typed", << <<I64(1), I64(1)>>, <<I64(3), I64(1)>> >>)), "key_not_in_enum", ""), <<"3">>),
      WithPath(Case(MapS(StringS(None, Some(1), None), PTA, None, None, FALSE), M("any_any", << <<Str("a"), I64(1)>> >>),
                    M("any_any", << <<Str("a"), I64(1)>>, <<Str("ab"), I64(1)>> >>), M("typed", << <<Str("a"), I64(1)>> >>),
                    Some(M("typed", << <<Str("a"), I64(1)>>, <<Str("ab"), I64(1)>> >>)), "key_above_max", ""), <<"ab">>),
      \* size bounds: the offending element is the collection itself
      Case(ListS(PTA, Some(1), Some(2), FALSE), L("any", <<I64(1)>>), L("any", <<>>), L("typed", <<I64(1)>>), Some(L("typed", <<>>)), "below_min", ""),
      Case(ListS(PTA, Some(1), Some(2), FALSE), L("any", <<I64(1)>>), L("any", <<I64(1), I64(1), I64(2)>>), L("typed", <<I64(1)>>),
           Some(L("typed", <<I64(1), I64(1), I64(2)>>)), "above_max", ""),
      Case(ListS(PTA, None, None, FALSE), L("any", <<I64(1)>>), Str("a"), L("typed", <<I64(1)>>), Some(Str("a")), "wrong_type", ""),
      \* objects: an undeclared key, a missing required property, violated presence rules
      WithKey(Case(ObjReq, Obj(<< <<Str("a"), I64(1)>> >>), Obj(<< <<Str("a"), I64(1)>>, <<Str("x"), I64(1)>> >>),
                   Obj(<< <<Str("a"), I64(1)>> >>), Some(Obj(<< <<Str("a"), I64(1)>>, <<Str("x"), I64(1)>> >>)), "extra_key", ""), "x"),
      WithKey(Case(ObjEmpty, Obj(<<>>), Obj(<< <<Str("x"), I64(1)>> >>), Obj(<<>>), Some(Obj(<< <<Str("x"), I64(1)>> >>)), "extra_key", ""), "x"),
      WithKey(Case(ObjEmpty, Obj(<<>>), Obj(<< <<Str("a"), Str("a")>> >>), Obj(<<>>), Some(Obj(<< <<Str("a"), Str("a")>> >>)), "extra_key", ""), "a"),
      WithKey(Case(OneOfTag, Obj(<< <<Str("type"), Str("a")>> >>), Obj(<< <<Str("type"), Str("a")>>, <<Str("x"), I64(1)>> >>),
                   Obj(<< <<Str("type"), Str("a")>> >>), Some(Obj(<< <<Str("type"), Str("a")>>, <<Str("x"), I64(1)>> >>)), "extra_key", ""), "x"),
      WithPath(Case(ObjReq, Obj(<< <<Str("a"), I64(1)>> >>), Obj(<< <<Str("b"), Str("a")>> >>),
                    Obj(<< <<Str("a"), I64(1)>> >>), Some(Obj(<< <<Str("b"), Str("a")>> >>)), "missing_required", ""), <<"a">>),
      WithPath(Case(ObjConf, Obj(<< <<Str("a"), I64(1)>> >>), Obj(<< <<Str("a"), I64(1)>>, <<Str("b"), Str("a")>> >>),
                    Obj(<< <<Str("a"), I64(1)>> >>), Some(Obj(<< <<Str("a"), I64(1)>>, <<Str("b"), Str("a")>> >>)), "conflict", ""), <<"b">>),
      WithPath(Case(ObjRif, Obj(<< <<Str("b"), Str("a")>> >>), Obj(<< <<Str("a"), I64(1)>> >>),
                    Obj(<< <<Str("b"), Str("a")>> >>), Some(Obj(<< <<Str("a"), I64(1)>> >>)), "required_if", ""), <<"b">>),
      WithPath(Case(ObjRifn, Obj(<< <<Str("a"), I64(1)>> >>), Obj(<<>>),
                    Obj(<< <<Str("a"), I64(1)>> >>), Some(Obj(<<>>)), "required_if_not", ""), <<"b">>),
      \* a leaf inside an object property
      WithPath(Case(ObjReq, Obj(<< <<Str("a"), I64(1)>> >>), Obj(<< <<Str("a"), I64(3)>> >>),
                    Obj(<< <<Str("a"), I64(1)>> >>), Some(Obj(<< <<Str("a"), I64(3)>> >>)), "above_max", ""), <<"a">>) }

\* every leaf kind corrupted with every wrong-type class: whatever representation the leaf is handed, the
\* rejection has to be a constraint error carrying the path
LeafKinds ==
    { [s |-> PTA, good |-> I64(1), ngood |-> I64(1)], [s |-> PTF, good |-> F64(2), ngood |-> F64(2)], [s |-> PTB, good |-> Str("a"), ngood |-> Str("a")],
      [s |-> BoolS, good |-> B(TRUE), ngood |-> B(TRUE)], [s |-> PES, good |-> Str("a"), ngood |-> Str("a")], [s |-> PEI, good |-> I64(1), ngood |-> I64(1)],
      [s |-> EnumStrS(<<"a", "b">>, TRUE), good |-> Str("a"), ngood |-> S("named", "a")],
      [s |-> PatternS, good |-> Str("a"), ngood |-> Re("a")], [s |-> AnyS, good |-> I64(1), ngood |-> I64(1)],
      [s |-> IntS(None, None, Some("sec")), good |-> Str("1s"), ngood |-> I64(1)] }
WrongClasses ==
    { Nil, L("any", <<>>), L("any", <<I64(1)>>), L("typed", <<Str("a")>>), L("bytes", <<I("uint8", 1)>>), M("any_any", <<>>), M("string_any", << <<Str("a"), I64(1)>> >>),
      J("struct"), J("ptr"), J("tag"), J("time"), J("bigint"), F64(3), F("float32", 3), FS("float64", "nan"), FS("float64", "+inf"), B(TRUE), I64(2), I("uint64", IMax + 1),
      Str("abc"), Str("#empty"), Str("["), S("named", "a"), Re("a") }
WrongTypeCases ==
    { Case(k.s, k.good, w, k.ngood, IF Valid(k.s, w).ok = "no" THEN Some(w) ELSE None, "wrong_type", "") :
        k \in LeafKinds, w \in {x \in WrongClasses : TRUE} }
AllLeafCases == LeafCases \cup {c \in WrongTypeCases : Unser(c.s, c.bad).ok = "no" \/ c.nbad.some}

\* ------------------------------------------------------------------ containers on the way
ContainerKindsOnPath == {"list", "map", "imap", "emap", "object", "dobject", "oneof", "struct"}
NB(c, mk(_)) == IF c.nbad.some THEN Some(mk(c.nbad.v)) ELSE None
Around(kind, c) ==
    CASE kind = "list" ->       \* the faulty element is the second item: index 1
            LET mk(x) == L("any", <<c.good, x>>)
                mkn(x) == L("typed", <<c.ngood, x>>)
            IN [c EXCEPT !.s = ListS(c.s, None, None, FALSE), !.good = mk(c.good), !.bad = mk(c.bad),
                         !.ngood = mkn(c.ngood), !.nbad = NB(c, mkn), !.path = <<"1">> \o c.path]
      [] kind = "map" ->        \* under the key "b" of a two-entry map
            LET mk(x) == M("any_any", << <<Str("a"), c.good>>, <<Str("b"), x>> >>)
                mkn(x) == M("typed", << <<Str("a"), c.ngood>>, <<Str("b"), x>> >>)
            IN [c EXCEPT !.s = MapS(StringS(None, None, None), c.s, None, None, FALSE), !.good = mk(c.good), !.bad = mk(c.bad),
                         !.ngood = mkn(c.ngood), !.nbad = NB(c, mkn), !.path = <<"b">> \o c.path]
      [] kind \in {"imap", "emap"} ->   \* under the integer key 2 of a map keyed by integers (imap) / an integer enum (emap)
            LET ks == IF kind = "imap" THEN IntS(Some(1), Some(3), None) ELSE EnumIntS(<<1, 2>>, None)
                mk(x) == M("any_any", << <<I64(1), c.good>>, <<I("uint64", 2), x>> >>)
                mkn(x) == M("typed", << <<I64(1), c.ngood>>, <<I64(2), x>> >>)
            IN [c EXCEPT !.s = MapS(ks, c.s, None, None, FALSE), !.good = mk(c.good), !.bad = mk(c.bad),
                         !.ngood = mkn(c.ngood), !.nbad = NB(c, mkn), !.path = <<"2">> \o c.path]
      [] kind \in {"object", "dobject"} ->     \* the property "x" of a map-based object; dobject: x carries a display name
            LET mk(x) == M("any_any", << <<Str("b"), Str("a")>>, <<Str("x"), x>> >>)
                mkn(x) == M("string_any", << <<Str("b"), Str("a")>>, <<Str("x"), x>> >>)
                px == IF kind = "dobject" THEN PropD("x", c.s, TRUE, "Network settings") ELSE Prop("x", c.s, TRUE)
            IN [c EXCEPT !.s = ObjectS("W", << Prop("b", StringS(None, None, None), FALSE), px >>, "map", FALSE),
                         !.good = mk(c.good), !.bad = mk(c.bad), !.ngood = mkn(c.ngood), !.nbad = NB(c, mkn), !.path = <<"x">> \o c.path]
      [] kind = "oneof" ->      \* the property "x" of the member a one-of dispatches to (the one-of itself adds no segment)
            LET mk(x) == M("any_any", << <<Str("type"), Str("a")>>, <<Str("x"), x>> >>)
                mkn(x) == M("string_any", << <<Str("type"), Str("a")>>, <<Str("x"), x>> >>)
            IN [c EXCEPT !.s = OneOfS("string", "type", FALSE, << <<"a", ObjectS("M", << Prop("x", c.s, TRUE) >>, "map", FALSE)>>,
                                                                  <<"b", ObjectS("N", << Prop("b", StringS(None, None, None), FALSE) >>, "map", FALSE)>> >>),
                         !.good = mk(c.good), !.bad = mk(c.bad), !.ngood = mkn(c.ngood), !.nbad = NB(c, mkn), !.path = <<"x">> \o c.path]
      [] kind = "struct" ->     \* the property "x" (a field of type any) of a struct-mapped object; raw form only below
            LET mk(x) == M("any_any", << <<Str("x"), x>> >>)
            IN [c EXCEPT !.s = ObjectS("T", << Prop("x", c.s, TRUE) >>, "ptrs", FALSE),
                         !.good = mk(c.good), !.bad = mk(c.bad), !.ngood = Struct("ptrs", << <<"x", Some(c.ngood)>> >>),
                         !.nbad = IF c.nbad.some THEN Some(Struct("ptrs", << <<"x", Some(c.nbad.v)>> >>)) ELSE None, !.path = <<"x">> \o c.path,
                         !.st = TRUE]

\* what a struct field of type any can hold: any / one-of / map-based objects
FitsAnyField(s) == s.kind \in {"any", "oneof"} \/ (s.kind = "object" /\ s.layout = "map")
\* (a one-of validates a map-based member's data with the compatibility rules first, which know no
\* struct values: struct-mapped objects are not placed below a one-of here)
CanWrap(kind, c) == (kind # "struct" \/ FitsAnyField(c.s)) /\ (kind = "oneof" => ~c.st)

\* the case a leaf becomes below the containers ks (outermost first); ok = FALSE where a container cannot
\* hold what is below it
RECURSIVE Nest(_, _)
Nest(ks, leaf) ==
    IF Len(ks) = 0 THEN [ok |-> TRUE, c |-> leaf]
    ELSE LET inner == Nest(Tail(ks), leaf) IN
         IF inner.ok /\ CanWrap(Head(ks), inner.c) THEN [ok |-> TRUE, c |-> Around(Head(ks), inner.c)] ELSE [ok |-> FALSE]
KindSeqs(n) == UNION {[1..m -> ContainerKindsOnPath] : m \in 0..n}
ExpectedPath(c) == c.path

\* ------------------------------------------------------------------ on the model
\* the valid input is accepted, the input with exactly one fault is rejected, on both paths
SingleFaultRejected(c) ==
    /\ Unser(c.s, c.good).ok = "yes"
    /\ Unser(c.s, c.bad).ok = "no"
    /\ Valid(c.s, c.ngood).ok = "yes"
    /\ c.nbad.some => Valid(c.s, c.nbad.v).ok = "no"
=============================================================================
