----------------------------- MODULE SchemaTrace -----------------------------
(***************************************************************************)
(* Code -> specification for the schema half.  A seeded random driver      *)
(* (harness/cmd/schema, family "rand") builds deeper schemas and bigger    *)
(* values than SchemaMC enumerates, runs the real entry points and logs    *)
(*                                                                         *)
(*   {"ev":"call", "s":<AST>, "op":"unser"|"valid"|"ser"|"compat",         *)
(*    "arg":<value>, "out":{"ok":BOOLEAN [, "v":<value>]}, "emb":..}       *)
(*                                                                         *)
(* A line is ACCEPTED iff out equals the operator's outcome class (accept  *)
(* / reject, and the value where the operator fixes one).  Values the      *)
(* abstraction cannot express are never logged (the driver checks them by  *)
(* the direct invariants only and counts them separately).                 *)
(*                                                                         *)
(* Every line is judged twice: against the DECLARED outcome (SchemaDecl -  *)
(* the property statement; a rejection is a C02 verdict) and against the   *)
(* operational model (SchemaSem; a rejection there alone is drift).  The   *)
(* lines are independent, so every line is its own initial state (all      *)
(* workers can be used) and the verdicts are exported one per line instead *)
(* of stopping at the first rejected line: the unchanged tree has known    *)
(* findings, and the lines after one must still be validated.  The         *)
(* orchestrator requires distinct states = lines and one verdict per line. *)
(***************************************************************************)
EXTENDS SchemaDecl, Export
\* see SchemaMC: tags before payloads in TLC's field order
FieldOrder == [fam |-> 0, kind |-> 0, k |-> 0, rep |-> 0, t |-> 0, ok |-> 0, d |-> 0, some |-> 0, op |-> 0, id |-> 0, name |-> 0, v |-> 0]

Trace == ndJsonDeserialize(IOEnv.VERIF_TRACE)
VARIABLE l
Init == l \in 1..Len(Trace)
Next == UNCHANGED l
Spec == Init /\ [][Next]_l

\* does the logged outcome equal the operator's outcome class?
Matches(out, exp) ==
    CASE exp.ok = "yes" -> out.ok /\ ((HasV(exp) /\ HasV(out)) => EqModRep(out.v, exp.v))
      [] exp.ok = "no" -> ~out.ok
      [] exp.ok = "maybe" -> (out.ok /\ HasV(exp) /\ HasV(out)) => EqModRep(out.v, exp.v)
Why(out, exp) ==
    IF Matches(out, exp) THEN "ok"
    ELSE IF out.ok /\ exp.ok # "no" THEN "value" ELSE "class"

LineVerdict(i) ==
    LET e == Trace[i]
        dcl == Declared(e.s, e.op, e.arg)
        opr == Outcome(e.s, e.op, e.arg)
        okd == Matches(e.out, dcl)
    IN [l |-> i, decl |-> okd, oper |-> Matches(e.out, opr), why |-> Why(e.out, dcl),
        \* for a rejected line: the full declared outcome and that of the direct children, so that the
        \* orchestrator can replay the line as an ordinary vector (localisation, replay file)
        exp |-> IF okd THEN [ok |-> dcl.ok] ELSE dcl,
        sub |-> IF okd THEN <<>> ELSE Sub(e.s, e.op, e.arg)]

\* the acceptance condition of one line (the orchestrator evaluates it from the exported verdicts)
Accepted == LET w == LineVerdict(l) IN w.decl /\ w.oper
Export == Emit(LineVerdict(l))
=============================================================================
