---------------------------- MODULE CompatTrace ----------------------------
(***************************************************************************)
(* C15, code -> specification.  A seeded random driver (harness/cmd/compat *)
(* gen) produces pairs deeper and more varied than the universe of         *)
(* CompatMC; the real A.ValidateCompatibility(B) is run on each and every  *)
(* pair that yielded ONE verdict is logged as a line                       *)
(*                                                                         *)
(*     {"a": AST, "b": AST, "mode": .., "hist": .., "verdict": "nil"|"err"} *)
(*                                                                         *)
(* (pairs without a single verdict - panic, stack exhaustion, differing    *)
(* verdicts across repetitions - contradict the property whatever the      *)
(* model says and are reported by the orchestrator directly).  A line is   *)
(* The history (which side parsed a unit-suffixed string before the call)  *)
(* is recorded but never consulted: no verdict may depend on it.  A line is*)
(* accepted iff its verdict is consistent with MustReject / MustAccept of  *)
(* spec/Compat.tla.  JSON arrays arrive as sequences; Norm turns them into *)
(* the sets the operators of Compat work on.                               *)
(***************************************************************************)
EXTENDS Compat, Sequences, Json, IOUtils, Export
Trace == ndJsonDeserialize(IOEnv.VERIF_TRACE)
VARIABLE l
Init == l = 1
Next == l <= Len(Trace) /\ l' = l + 1
Spec == Init /\ [][Next]_l

Range(s) == {s[i] : i \in DOMAIN s}

RECURSIVE Norm(_)
Norm(j) ==
    CASE j.kind \in {"int", "float", "string"}    -> ScalarU(j.kind, j.min, j.max, j.units)
      [] j.kind \in {"bool", "pattern", "any"}     -> [kind |-> j.kind]
      [] j.kind \in {"enum_int", "enum_string"}    -> EnumS(j.kind, Range(j.values), j.named, j.spell)
      [] j.kind = "list"   -> ListI(Norm(j.items), j.min, j.max, j.impl)
      [] j.kind = "map"    -> MapI(Norm(j.keys), Norm(j.vals), j.min, j.max, j.impl)
      [] j.kind = "object" -> ObjectI(j.id, {[PropR(p.name, Norm(p.type), p.required, p.has_default, p.disabled, Range(p.conflicts),
                                                   Range(p.required_if), Range(p.required_if_not)) EXCEPT !.display = p.display]
                                                  : p \in Range(j.props)},
                                      j.id_unenforced, j.impl)
      [] j.kind = "ref"    -> Ref(j.id)
      [] j.kind = "scope"  -> Scope(j.root, {Norm(o) : o \in Range(j.objects)})
      [] j.kind = "oneof"  -> OneOfI(j.disc, j.field, {Member(m.key, Norm(m.obj)) : m \in Range(j.members)}, j.inline)

LineOK(e) == VerdictOK(Norm(e.a), Norm(e.b), e.verdict)

\* the generator's contract: only well-formed schemas are recorded (a violation of this one is a
\* fault of the generator, not of the code under test)
Generated == l > 1 => WellFormed(Norm(Trace[l - 1].a)) /\ WellFormed(Norm(Trace[l - 1].b))

Accepted == l > 1 => LineOK(Trace[l - 1])

\* diagnosis run (after a rejection): judge every line instead of stopping at the first
Diagnose ==
    l > 1 => LET e == Trace[l - 1]
                 A == Norm(e.a)
                 B == Norm(e.b)
             IN Emit([line |-> l - 1, ok |-> VerdictOK(A, B, e.verdict), exp |-> Expect(A, B),
                      rules |-> Reasons(A, B, {}, {}, {})])
=============================================================================
