---------------------------- MODULE ATPClientEnv ----------------------------
(***************************************************************************)
(* C08: the client of ATP.tla against a server stream that breaks.  The     *)
(* server processes are replaced by an environment that reads whatever the  *)
(* client writes, answers work-starts (in any order, possibly never),       *)
(* interleaves unsolicited traffic, and at any moment lets the stream end,  *)
(* turn to garbage, stop inside a message, or makes the client's writes     *)
(* fail.  Every client action is that of ATP.tla.                           *)
(*                                                                         *)
(* Bookkeeping reuses server variables of ATP.tla that are otherwise idle:  *)
(*   accepted[r]  work-starts for r the environment has read               *)
(*   terminal[r]  INTACT work-done messages for r it has written           *)
(*   workq        one token per unsolicited message sent (bound MaxUnsol)  *)
(*   crashed      "no" | "garbled": the stream has been corrupted          *)
(***************************************************************************)
EXTENDS ATPServerEnv      \* (chained only so that ATPTrace can extend both environments)

CONSTANT MaxUnsol

Garbled == crashed # "no"

\* the environment reads the client's messages (a write of the client never blocks for long)
FRead ==
    /\ c2s # <<>> /\ ~stdinClosed
    /\ LET f == Head(c2s) IN
         accepted' = IF f.m.t = "ws" /\ f.p \in {0, 2} /\ f.m.r \in Runs
                       THEN [accepted EXCEPT ![f.m.r] = @ + 1] ELSE accepted
    /\ c2s' = Tail(c2s)
    /\ UNCHANGED <<cvars, s2c, stdinClosed, outClosed, spc, sbuf, smsg, step, beh, sigg, workq, workClosed, emu,
                   hpc, hmsg, hdrain, crashed, terminal, srvRet>>

Put(frs) == s2c' = s2c \o frs

\* an intact answer to a work-start: work-done or a step-fatal error for that run
FReply(r, kind) ==
    /\ ~outClosed /\ ~Garbled /\ accepted[r] > 0 /\ beh[r] = "none"
    /\ beh' = [beh EXCEPT ![r] = kind]
    /\ IF kind = "ok"
         THEN /\ \E f \in Frags(Msg("wd", r, r)) : Put(f)
              /\ terminal' = [terminal EXCEPT ![r] = @ + 1]
         ELSE /\ \E f \in Frags(Msg("err", r, "step")) : Put(f)
              /\ UNCHANGED terminal
    /\ UNCHANGED <<cvars, c2s, stdinClosed, outClosed, spc, sbuf, smsg, step, sigg, workq, workClosed, emu,
                   hpc, hmsg, hdrain, crashed, accepted, srvRet>>

Unsolicited == {Msg("err", NoRun, "server"), Msg("err", NoRun, "none"), Msg("err", NoRun, "step"),
                Msg("bad", NoRun, "")}
               \cup {Msg("sig", r, "") : r \in Runs}
               \cup {Msg("err", r, "none") : r \in Runs}     \* a non-fatal error about a run: pending, finished or never started
               \cup {Msg("wd", r, "dup") : r \in Runs}       \* a result nobody asked for (again)

FUnsolicited(m) ==
    /\ ~outClosed /\ ~Garbled /\ Len(workq) < MaxUnsol
    /\ Put(<<Whole(m)>>)
    /\ workq' = Append(workq, m)
    /\ terminal' = IF m.t = "wd" THEN [terminal EXCEPT ![m.r] = @ + 1] ELSE terminal   \* intact, if unasked for
    /\ UNCHANGED <<cvars, c2s, stdinClosed, outClosed, spc, sbuf, smsg, step, beh, sigg, workClosed, emu,
                   hpc, hmsg, hdrain, crashed, accepted, srvRet>>

\* the stream turns to garbage (from here on no decoder can resynchronise)
FGarbage ==
    /\ ~outClosed /\ ~Garbled
    /\ Put(<<Whole(Msg("junk", NoRun, ""))>>)
    /\ crashed' = "garbled"
    /\ UNCHANGED <<cvars, c2s, stdinClosed, outClosed, spc, sbuf, smsg, step, beh, sigg, workq, workClosed, emu,
                   hpc, hmsg, hdrain, accepted, terminal, srvRet>>

\* the stream stops inside a work-done message
FPartial(r) ==
    /\ ~outClosed /\ ~Garbled /\ accepted[r] > 0 /\ beh[r] = "none"
    /\ Put(<<[m |-> Msg("wd", r, r), p |-> 1]>>)
    /\ crashed' = "garbled"
    /\ outClosed' = TRUE
    /\ UNCHANGED <<cvars, c2s, stdinClosed, spc, sbuf, smsg, step, beh, sigg, workq, workClosed, emu,
                   hpc, hmsg, hdrain, accepted, terminal, srvRet>>

\* end of stream / I/O error
FClose ==
    /\ ~outClosed
    /\ outClosed' = TRUE
    /\ UNCHANGED <<cvars, c2s, s2c, stdinClosed, svars>>

\* the client's writes start failing
FCloseIn ==
    /\ ~stdinClosed
    /\ stdinClosed' = TRUE
    /\ UNCHANGED <<cvars, c2s, s2c, outClosed, svars>>

FEnv ==
    \/ FRead \/ FGarbage \/ FClose \/ FCloseIn
    \/ \E r \in Runs : FReply(r, "ok") \/ FReply(r, "err") \/ FPartial(r)
    \/ \E m \in Unsolicited : FUnsolicited(m)

FNext == ClientNext \/ FEnv
FSpec == Init /\ [][FNext]_vars

FFair ==
    /\ WF_vars(FRead) /\ WF_vars(FClose)
    /\ \A r \in Runs : WF_vars(Register(r)) /\ WF_vars(SendLock(r)) /\ WF_vars(SendWrite(r))
                       /\ WF_vars(SendDone(r)) /\ WF_vars(SendFail(r)) /\ WF_vars(GetResult(r))
                       /\ WF_vars(Take(r)) /\ WF_vars(ExecBegin(r))
                       /\ WF_vars(WBegin(r)) /\ WF_vars(WLock(r)) /\ WF_vars(WWrite(r)) /\ WF_vars(WDone(r)) /\ WF_vars(WExit(r))
    /\ WF_vars(LoopFill) /\ WF_vars(LoopDecode) /\ WF_vars(LoopDecodeErr) /\ WF_vars(LoopHandle)
    /\ WF_vars(LoopFailAll) /\ WF_vars(LoopCheck) /\ WF_vars(LoopExit)
    /\ WF_vars(CloseBegin) /\ WF_vars(CloseLock) /\ WF_vars(CloseWrite) /\ WF_vars(CloseWritten) /\ WF_vars(CloseReturn)
FFairSpec == FSpec /\ FFair

\* ------------------------------------------------------------------ properties (C08)
\* when nothing can move any more (in particular the stream has ended) every call has returned
FailNotHang == (~ENABLED FNext) => AllDone
\* success only for a run whose work-done arrived intact, and with that run's own payload
NoFabrication == \A r \in Runs : res[r].st = "ok" => terminal[r] >= 1 /\ res[r].x \in {r, "dup"}
FReturnsOnce == \A r \in Runs : rets[r] <= 1
FEventuallyReturns == \A r \in Runs : (cpc[r] = "reg") ~> (cpc[r] = "ret")
FCloseReturns == (clpc = "cancelled") ~> (clpc = "ret")
=============================================================================
