------------------------------ MODULE CompatMC ------------------------------
(***************************************************************************)
(* C15 - enumeration of ordered (consumer, producer) pairs over a          *)
(* generated schema universe.  Every state is one case: the pair, the way  *)
(* the harness obtains the Go values ("mode") and the expectation          *)
(* "reject" / "accept" / "open" with the rules that demand the rejection.  *)
(*                                                                         *)
(* Universe (U0): int / float / string, lists and maps with every          *)
(* nil / non-nil combination of bounds (values chosen so that each of the  *)
(* 16 patterns of a pair occurs with overlapping, touching and disjoint    *)
(* ranges), enums over several value sets with and without display names,  *)
(* bool, pattern, any, objects differing in one feature (ID, ID            *)
(* enforcement, one property more / fewer / optional / of another kind,    *)
(* a property with a default - required or optional -, a disabled          *)
(* property - required or optional),                                       *)
(* one-ofs differing in one feature (discriminator kind or field, one      *)
(* member more / fewer / different), scopes with references, and recursive *)
(* struct-mapped and typed objects, a scope of struct-mapped objects,      *)
(* and mutually recursive scopes (through a property, a list, a map, a     *)
(* one-of member), each with a variant that differs deep inside the cycle. *)
(*                                                                         *)
(*   depth 1:  all ordered pairs of one family (identical, mutated) and    *)
(*             every schema against one representative of each other       *)
(*             family, both ways (unrelated)                               *)
(*   depth 2:  W(S) against W(T) for every wrapper W in Wrap2 and every    *)
(*             pair of one family (plus one representative per family      *)
(*             against every other)                                        *)
(*   depth 3:  W1(W2(S)) against W1(W2(T)) for <<W1, W2>> in Wrap3 over    *)
(*             the reduced universe U3 (pairs of one family, plus any as   *)
(*             consumer and as producer against one of every family)       *)
(*                                                                         *)
(* Units: ints and floats with the package-level unit sets and a generated *)
(* one; typed lists and maps beside the plain ones in every bound shape.   *)
(* Histories ("hist"): see Hists below.                                    *)
(*                                                                         *)
(* Modes: "direct" (both built independently from the AST), "self" (the    *)
(* producer is the very same Go value), "rb" / "ra" (producer / consumer   *)
(* is a scope rebuilt from its own description: SelfSerialize +            *)
(* UnserializeScope + ApplySelf).                                          *)
(***************************************************************************)
EXTENDS Compat, Export
CONSTANTS MinVals, MaxVals,        \* bound values of U0
          EnumSets,                \* value sets of the enums of U0
          MinVals3, MaxVals3, EnumSets3,   \* the same for the reduced universe U3
          Wrap2,                   \* wrappers applied at depth 2
          Wrap3                    \* pairs <<outer, inner>> of wrappers applied at depth 3
VARIABLE v

\* ------------------------------------------------------------------ the universe
Opts(Vals) == {None} \cup {Some(x) : x \in Vals}
BoundsOf(mins, maxs) == {b \in Opts(mins) \X Opts(maxs) : (b[1].some /\ b[2].some) => b[1].v <= b[2].v}

IntU == Scalar("int", None, None)
FloatU == Scalar("float", None, None)
Str  == Scalar("string", None, None)

Scalars(B) == {Scalar(k, b[1], b[2]) : k \in {"int", "float", "string"}, b \in B}
Lists(B)   == {List(BoolS, b[1], b[2]) : b \in B}
Maps(B)    == {Map(Str, BoolS, b[1], b[2]) : b \in B}
TLists(B)  == {ListI(BoolS, b[1], b[2], "typed") : b \in B}
TMaps(B)   == {MapI(Str, BoolS, b[1], b[2], "typed") : b \in B}
\* ints and floats with units: the package-level sets and a generated one
UnitScalars == {ScalarU(k, None, None, u) : k \in {"int", "float"}, u \in {"bytes", "time", "custom"}}
UnitScalars3 == {ScalarU("int", None, None, "bytes"), ScalarU("int", None, None, "custom"),
                 ScalarU("float", None, None, "time"), ScalarU("float", None, None, "custom")}
Enums(E)   == {Enum(k, vs, n) : k \in {"enum_int", "enum_string"}, vs \in E, n \in BOOLEAN}
Simple     == {BoolS, PatternS, AnyS}
\* an integer enum and the string enums that spell (all / one of) the same numbers as one-character strings:
\* what Go's integer-to-string conversion makes of 65 and 66 is "A" and "B"
RuneEnums  == {Enum("enum_int", {65, 66}, FALSE), EnumS("enum_string", {65, 66}, FALSE, "rune"),
               EnumS("enum_string", {65, 66}, FALSE, "mixed")}

\* objects: O0 and its single-feature mutations
P0 == {Prop("p", IntU, TRUE), Prop("q", Str, FALSE)}
O0 == Object("O", P0, FALSE)
OM == ObjectI("O", P0, FALSE, "mapped")
OT == ObjectI("O", P0, FALSE, "typed")
\* objects with rules between their fields: compatible with themselves and their rebuilt copies like any other
OC == Object("O", { PropR("p", IntU, FALSE, FALSE, FALSE, {"q"}, {}, {}),               \* p and q conflict
                    PropR("q", Str, FALSE, FALSE, FALSE, {"p"}, {}, {}) }, FALSE)
ObjectsR == { OC,
              Object("O", { Prop("p", IntU, TRUE),                                      \* q required when p is set
                            PropR("q", Str, FALSE, FALSE, FALSE, {}, {"p"}, {}) }, FALSE),
              Object("O", { PropR("p", IntU, FALSE, FALSE, FALSE, {}, {}, {"q"}),       \* p required when q is not set
                            Prop("q", Str, FALSE) }, FALSE) }

\* display shapes of the required property p (and of the optional q): with a producer that lacks p the
\* rejection has to come out for every shape
ObjectsD == {Object("O", {PropD("p", IntU, TRUE, d), Prop("q", Str, FALSE)}, FALSE) : d \in DisplayShapes \ {"none"}}
            \cup {Object("O", {Prop("p", IntU, TRUE), PropD("q", Str, FALSE, "desc")}, FALSE)}
ObjectsD2 == {Object("O", {PropD("p", IntU, TRUE, d), Prop("q", Str, FALSE)}, FALSE) : d \in {"name", "desc"}}

Objects == { O0,
             Object("P", P0, FALSE),                                                   \* another ID
             Object("P", P0, TRUE),                                                    \* another ID, not enforced
             Object("O", P0, TRUE),                                                    \* same ID, not enforced
             Object("O", P0 \cup {Prop("r", BoolS, FALSE)}, FALSE),                     \* one optional property more
             Object("O", {Prop("q", Str, FALSE)}, FALSE),                              \* lacks the required property
             Object("O", {Prop("p", IntU, TRUE)}, FALSE),                              \* lacks the optional property
             Object("O", {Prop("p", IntU, FALSE), Prop("q", Str, FALSE)}, FALSE),      \* p optional
             Object("O", {Prop("p", Str, TRUE), Prop("q", Str, FALSE)}, FALSE),        \* p of another kind
             Object("O", {Prop("p", IntU, TRUE), Prop("q", Str, TRUE)}, FALSE),        \* q required
             Object("O", {}, FALSE),                                                   \* no properties
             \* required x default: (T, -) is O0, (F, -) is "p optional"; a producer lacking p (above) is
             \* rejected by every consumer that requires p, with or without a default
             Object("O", {PropX("p", IntU, TRUE, TRUE, FALSE), Prop("q", Str, FALSE)}, FALSE),   \* p required, with a default
             Object("O", {PropX("p", IntU, FALSE, TRUE, FALSE), Prop("q", Str, FALSE)}, FALSE),  \* p optional, with a default
             Object("O", {Prop("p", IntU, TRUE), PropX("q", Str, TRUE, TRUE, FALSE)}, FALSE),    \* q required, with a default
             \* disabled properties: every such object is compatible with itself and its rebuilt copy
             Object("O", P0 \cup {PropX("r", BoolS, FALSE, FALSE, TRUE)}, FALSE),                \* one optional disabled property more
             Object("O", {PropX("p", IntU, TRUE, FALSE, TRUE), Prop("q", Str, FALSE)}, FALSE),   \* p disabled
             OM, OT }                                                                  \* O0 struct-mapped / as a typed object
             \cup ObjectsR \cup ObjectsD

\* one-ofs: X0 and its single-feature mutations
MA == Object("MA", {Prop("x", IntU, TRUE)}, FALSE)
MB == Object("MB", {Prop("y", Str, FALSE)}, FALSE)
MC == Object("MC", {Prop("z", BoolS, FALSE)}, FALSE)
X0 == OneOf("string", "kind", {Member(1, MA), Member(2, MB)})
\* one-ofs that inline the discriminator.  DT(d) = the type a discriminator of kind d has as a property; the
\* members of XI declare BOTH candidate fields (so members of XI(d, "kind") and XI(d, "type") are pairwise
\* compatible and only the field name tells the two one-ofs apart), the members of XJ only their own.
DT(d) == IF d = "string" THEN Str ELSE IntU
IM(id, d, fs) == Object(id, {Prop("x", IntU, FALSE)} \cup {Prop(f, DT(d), TRUE) : f \in fs}, FALSE)
XI(d, f) == OneOfI(d, f, {Member(1, IM("MA", d, {"kind", "type"})), Member(2, IM("MB", d, {"kind", "type"}))}, TRUE)
XJ(d, f) == OneOfI(d, f, {Member(1, IM("MA", d, {f})), Member(2, IM("MB", d, {f}))}, TRUE)
OneOfsI == {XI(d, f) : d \in {"string", "int"}, f \in {"kind", "type"}} \cup {XJ("string", f) : f \in {"kind", "type"}}
\* the same behind references, inside a scope (rebuilt modes)
SXI(f) == Scope("R", { Object("R", {Prop("item", OneOfI("string", f, {Member(1, Ref("MA")), Member(2, Ref("MB"))}, TRUE), TRUE)}, FALSE),
                       IM("MA", "string", {"kind", "type"}), IM("MB", "string", {"kind", "type"}) })

OneOfs == { X0,
            OneOf("int", "kind", {Member(1, MA), Member(2, MB)}),                      \* integer discriminator
            OneOf("string", "type", {Member(1, MA), Member(2, MB)}),                   \* another field
            OneOf("string", "kind", {Member(1, MA)}),                                  \* one member fewer
            OneOf("string", "kind", {Member(1, MA), Member(2, MB), Member(3, MC)}),    \* one member more
            OneOf("string", "kind", {Member(1, MA), Member(2, MC)}),                   \* another object under key 2
            OneOf("string", "kind", {Member(1, MA), Member(3, MB)}) }                  \* another key
          \cup OneOfsI

\* scopes with references: S0 and its mutations
SC(x, req) == Object("C", {Prop("x", x, req)}, FALSE)
SR(c) == Object("O", {Prop("p", IntU, TRUE), Prop("c", c, FALSE)}, FALSE)
S0 == Scope("O", {SR(Ref("C")), SC(Str, TRUE)})
\* S0 with struct-mapped objects: the scope and the reference reflect as the Go struct
SM == Scope("O", { ObjectI("O", {Prop("p", IntU, TRUE), Prop("c", Ref("C"), FALSE)}, FALSE, "mapped"),
                   ObjectI("C", {Prop("x", Str, TRUE)}, FALSE, "mapped") })
Scopes == { S0, SM, SXI("kind"), SXI("type"),
            Scope("O", {SR(Ref("C")), Object("C", {PropD("x", Str, TRUE, "icon")}, FALSE)}),  \* x documented by an icon only
            Scope("O", {SR(Ref("C")),                                                  \* referenced object's fields conflict
                        Object("C", { PropR("x", Str, FALSE, FALSE, FALSE, {"y"}, {}, {}),
                                      PropR("y", BoolS, FALSE, FALSE, FALSE, {"x"}, {}, {}) }, FALSE)}),
            Scope("O", {SR(Ref("C")), SC(IntU, TRUE)}),                                \* referenced object differs in a kind
            Scope("O", {SR(Ref("C")), SC(Str, FALSE)}),                                \* ... in "required"
            Scope("O", {SR(Ref("D")), Object("D", {Prop("x", Str, TRUE)}, FALSE)}),    \* ... in its ID
            Scope("O", {SR(SC(Str, TRUE))}),                                           \* the object inlined instead of referenced
            Scope("O", {SR(Ref("C")), Object("C", {}, FALSE)}),                        \* referenced object lacks x
            Scope("O", {SR(Ref("C")),                                                  \* x with a default, a disabled property more
                        Object("C", {PropX("x", Str, TRUE, TRUE, FALSE), PropX("y", BoolS, FALSE, FALSE, TRUE)}, FALSE)}) }

\* recursive scopes; "leaf" is the kind of the payload property inside the cycle
RT(leaf, next) == Object("T", {Prop("v", leaf, TRUE), Prop("next", next, FALSE)}, FALSE)
Rec1(leaf)  == Scope("T", {RT(leaf, Ref("T"))})                                        \* T -> T
RecL(leaf)  == Scope("T", {RT(leaf, List(Ref("T"), None, None))})                      \* through a list
RecM(leaf)  == Scope("T", {RT(leaf, Map(Str, Ref("T"), None, None))})                  \* through map values
RecO(leaf)  == Scope("T", {RT(leaf, OneOf("string", "d", {Member(1, Ref("T"))}))})     \* through a one-of member
Rec2(leaf, extra) ==                                                                   \* A -> B -> A
    Scope("A", { Object("A", {Prop("b", Ref("B"), TRUE)}, FALSE),
                 Object("B", {Prop("a", Ref("A"), FALSE), Prop("v", leaf, TRUE)} \cup extra, FALSE) })
Recs == { Rec1(IntU), Rec1(Str), RecL(IntU), RecM(IntU), RecO(IntU),
          Rec2(IntU, {}), Rec2(Str, {}), Rec2(IntU, {Prop("w", BoolS, FALSE)}) }

\* typed lists in every bound shape of B, typed maps in the shapes of the reduced bounds B3
Universe(B, E, B3) == Scalars(B) \cup UnitScalars \cup Lists(B) \cup TLists(B) \cup Maps(B) \cup TMaps(B3)
                  \cup Enums(E) \cup RuneEnums \cup Simple
                  \cup Objects \cup OneOfs \cup Scopes \cup Recs
U0 == Universe(BoundsOf(MinVals, MaxVals), EnumSets, BoundsOf(MinVals3, MaxVals3))
U3 == Scalars(BoundsOf(MinVals3, MaxVals3)) \cup UnitScalars3 \cup Lists(BoundsOf(MinVals3, MaxVals3))
      \cup Maps(BoundsOf(MinVals3, MaxVals3)) \cup TLists(BoundsOf(MinVals3, MaxVals3))
      \cup TMaps(BoundsOf(MinVals3, MaxVals3)) \cup Enums(EnumSets3) \cup RuneEnums \cup Simple
      \cup (Objects \ ((ObjectsR \ {OC}) \cup (ObjectsD \ ObjectsD2))) \cup (OneOfs \ (OneOfsI \ {XI("string", "kind"), XI("string", "type")}))
      \cup {S0, SM, Rec1(IntU), Rec1(Str)}

\* one representative per family, compared across families below the wrappers
Reps == {IntU, FloatU, Str, BoolS, PatternS, AnyS, List(BoolS, None, None), Map(Str, BoolS, None, None),
         Enum("enum_int", {1}, FALSE), Enum("enum_string", {1}, FALSE), O0, OM, OT, X0, S0, SM, Rec1(IntU),
         ListI(BoolS, None, None, "typed"), MapI(Str, BoolS, None, None, "typed"), ScalarU("int", None, None, "bytes")}
        \cup RuneEnums
\* ... and below the wrapper pairs of depth 3 (any and pattern against every kind, three levels down)
Reps3 == {IntU, FloatU, Str, BoolS, PatternS, AnyS, List(BoolS, None, None), Map(Str, BoolS, None, None),
          O0, OM, OT, X0, S0, SM, ListI(BoolS, None, None, "typed"), MapI(Str, BoolS, None, None, "typed"),
          ScalarU("int", None, None, "bytes")} \cup {e \in U3 : e.kind \in {"enum_int", "enum_string"} /\ ~e.named}

\* ------------------------------------------------------------------ wrappers
Wrappers == {"list", "mapval", "mapkey", "prop", "scope", "ref", "member"}
W(w, S) ==
    CASE w = "list"   -> List(S, None, None)
      [] w = "mapval" -> Map(Str, S, None, None)
      [] w = "mapkey" -> Map(S, BoolS, None, None)
      [] w = "prop"   -> Object("W", {Prop("p", S, TRUE), Prop("z", BoolS, FALSE)}, FALSE)
      [] w = "scope"  -> Scope("W", {Object("W", {Prop("p", S, TRUE)}, FALSE)})
      [] w = "ref"    -> Scope("W", { Object("W", {Prop("c", Ref("I"), TRUE)}, FALSE),
                                      Object("I", {Prop("p", S, FALSE)}, FALSE) })
      [] w = "member" -> OneOf("string", "d", {Member(1, Object("M", {Prop("p", S, TRUE)}, FALSE))})
CanWrap(w, S) == (w = "mapkey") => (S.kind \in KeyKinds)

Related(S, T) == Family(S) = Family(T)

\* configurations name these (a .cfg cannot write tuples)
Wrap3Quick == {<<"list", "prop">>, <<"prop", "mapval">>, <<"ref", "list">>, <<"mapval", "mapkey">>,
               <<"scope", "member">>, <<"member", "ref">>}
Wrap3All   == (Wrappers \ {"mapkey"}) \X Wrappers

Modes(a, b) == {"direct"}
               \cup (IF a = b THEN {"self"} ELSE {})
               \cup (IF b.kind = "scope" THEN {"rb"} ELSE {})
               \cup (IF a.kind = "scope" /\ a = b THEN {"ra"} ELSE {})

\* Histories.  Unit sets fill private caches when they first parse a unit-suffixed string ("5kB"); "a" /
\* "b": every unit-carrying int / float of the directly built consumer / producer parses such a string
\* before anything else happens (before the description is taken in the rebuilt modes, before the
\* compatibility call).  The package-level unit sets are process state shared by every schema naming them:
\* the harness lets an unrelated schema parse with each of them before any case, so they are always "used".
\* No expectation depends on the history.
Hists(a, b, m) == {"none"} \cup (IF HasUnits(a) THEN {"a"} ELSE {})
                          \cup (IF HasUnits(b) /\ m # "self" THEN {"b"} ELSE {})

Case(a, b, m, h) == [a |-> a, b |-> b, mode |-> m, hist |-> h]
Pick(a, b) == \E m \in Modes(a, b) : \E h \in Hists(a, b, m) : v = Case(a, b, m, h)

\* the typed containers, the unit-carrying scalars, the objects with rules between fields and the inlining one-ofs meet their own family and the representatives of the
\* others (not every unrelated schema); below a wrapper the typed lists keep the reduced bound shapes and
\* the unit-carrying scalars are those of the reduced universe; of the objects with rules the one with
\* conflicting fields, of the inlining one-ofs those whose members declare both candidate fields
Ext(s) == \/ s.kind \in {"list", "map"} /\ s.impl = "typed"
          \/ s.kind \in {"int", "float"} /\ s.units # "none"
          \/ s \in ObjectsR \cup ObjectsD \cup OneOfsI \cup RuneEnums
Deep2(s) == /\ (s.kind = "list" /\ s.impl = "typed") => <<s.min, s.max>> \in BoundsOf(MinVals3, MaxVals3)
            /\ (s.kind \in {"int", "float"} /\ s.units # "none") => s \in UnitScalars3
            /\ s \notin (ObjectsR \ {OC}) \cup (ObjectsD \ ObjectsD2) \cup {XJ("string", f) : f \in {"kind", "type"}}

Init ==
    \/ \E s \in U0 : \E t \in U0 :
          /\ \/ Related(s, t)
             \/ s \in Reps /\ t \in Reps
             \/ ~Ext(s) /\ ~Ext(t) /\ (s \in Reps \/ t \in Reps)
          /\ Pick(s, t)
    \/ \E w \in Wrap2 : \E s \in U0 : \E t \in U0 :
          /\ Related(s, t) \/ (s \in Reps /\ t \in Reps)
          /\ Deep2(s) /\ Deep2(t)
          /\ CanWrap(w, s) /\ CanWrap(w, t)
          /\ Pick(W(w, s), W(w, t))
    \/ \E ww \in Wrap3 : \E s \in U3 : \E t \in U3 :
          /\ \/ Related(s, t)
             \/ s \in Reps3 /\ t \in Reps3 /\ "any" \in {s.kind, t.kind}
             \/ s \in RuneEnums /\ t \in RuneEnums
          /\ CanWrap(ww[2], s) /\ CanWrap(ww[2], t) /\ ww[1] # "mapkey"
          /\ Pick(W(ww[1], W(ww[2], s)), W(ww[1], W(ww[2], t)))
Next == UNCHANGED v
Spec == Init /\ [][Next]_v

\* ------------------------------------------------------------------ the model's own properties
RuleNames == {"kind", "range", "size", "enum_value", "id", "undeclared", "missing_required",
              "discriminator", "member"}

WFOK == WellFormed(v.a) /\ WellFormed(v.b)

\* Reasons is evaluated once per state (R) and the properties below are stated on it:
\*   Consistent   the two halves of the partial specification never contradict each other (this is what
\*                forces min <= max)
\*   Terminates   the recursion terminates - also on recursive scopes - with known rule names
\*   Reflexive    every schema is compatible with itself
\*   ModesOK      a case the two sides of which are the same schema is never "open"
\*   FlagsBlind   the rejection rules look at the structure only: defaults, disabled flags and the rules
\*                between fields change no reason
ExpectOf(R, a, b) == IF R # {} THEN "reject" ELSE IF MustAccept(a, b) THEN "accept" ELSE "open"
Consistent(R) == ~(R # {} /\ MustAccept(v.a, v.b))
Terminates(R) == R \subseteq RuleNames
Reflexive     == Reasons(v.a, v.a, {}, {}, {}) = {} /\ (v.b = v.a \/ Reasons(v.b, v.b, {}, {}, {}) = {})
ModesOK(R)    == (v.mode \in {"self", "ra"} => v.a = v.b) /\ (v.a = v.b => ExpectOf(R, v.a, v.b) = "accept")
FlagsBlind(R) == R = Reasons(Plain(v.a), Plain(v.b), {}, {}, {})

\* operational range test = declarative reading ("the ranges have no common point")
Line == 0..12
Bounded(S) == S.kind \in {"int", "float", "string", "list", "map"}
RangesDeclarative ==
    (Bounded(v.a) /\ v.a.kind = v.b.kind) => (Disjoint(v.a, v.b) <=> NoCommonPoint(v.a, v.b, Line))

ModelOK == LET R == Reasons(v.a, v.b, {}, {}, {}) IN
           WFOK /\ Consistent(R) /\ Terminates(R) /\ Reflexive /\ RangesDeclarative /\ ModesOK(R) /\ FlagsBlind(R)

Export == LET R == Reasons(v.a, v.b, {}, {}, {}) IN
          Emit([a |-> v.a, b |-> v.b, mode |-> v.mode, hist |-> v.hist, exp |-> ExpectOf(R, v.a, v.b), rules |-> R])
=============================================================================
