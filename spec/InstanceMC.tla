----------------------------- MODULE InstanceMC -----------------------------
(* Model checking root of Instance.tla (C12, C13).                            *)
(*                                                                             *)
(* instance_c12_*.cfg : one goroutine, every call history of length <=        *)
(*   MaxCalls on every (kind, origin); all deviations FALSE (the design the    *)
(*   property demands): HistoryFree, Deterministic, CacheIntegrity,            *)
(*   DescribeUnchanged, ArgumentPreserved hold; ExportHist writes the          *)
(*   histories with the required results.                                      *)
(* instance_c13_*.cfg : 2..3 goroutines over the lazy paths, all deviations    *)
(*   FALSE: NoRace, Isolated hold; ExportSched writes the first-use schedules. *)
(* instance_dev.cfg   : ONE named deviation switched on through the            *)
(*   environment (IOEnv.VERIF_DEV); the invariant it breaks is expected to be  *)
(*   violated; run with -continue, the Witness* invariants write every state   *)
(*   in which a property of the statement fails - TLC exhibits the defect on   *)
(*   the model first; the orchestrator replays the witnesses into the real     *)
(*   code as targeted histories / schedules.                                   *)
EXTENDS Instance, Export

\* record field order (tags first), see AGENT_GUIDE addendum
FieldOrder == [at |-> 0, g |-> 0, kind |-> 0, k |-> 0, ok |-> 0, op |-> 0, origin |-> 0, st |-> 0, tok |-> 0,
               w |-> 0, what |-> 0, arg |-> 0, argAfter |-> 0, calls |-> 0, dev |-> 0, exp |-> 0, m |-> 0, n |-> 0,
               res |-> 0, sched |-> 0]

Dev == IF "VERIF_DEV" \in DOMAIN IOEnv THEN IOEnv.VERIF_DEV ELSE "none"
\* constant definitions substituted through the configuration files
DevAlias == Dev = "AliasDefaults"
DevLazy == Dev = "LazyUnsync"
DevCollide == Dev = "CollideEither"
DevStrip == Dev = "StripInPlace"
DevRestore == Dev = "StripRestore"
DevScratch == Dev = "DirtyScratch"
DevMarks == Dev = "SharedMarks"
DevInProgress == Dev = "SharedInProgress"
DevMemo == Dev = "StaleMemo"
DevError == Dev = "SharedError"
DevSort == Dev = "SortInPlace"
DevConvert == Dev = "ConvertInPlace"
DevHide == Dev = "HideRestore"
DevEarly == Dev = "EarlyExitWalk"
DevLast == Dev = "LastKeyDecides"
DevMemoRoot == Dev = "MemoRootUnsync"
DevReuse == Dev = "ReuseInputContainer"
DevRelease == Dev = "ReleaseOutsideLock"
DevEmpty == Dev = "CacheEmptyUnsync"
DevNoMutex == Dev = "NoStepMutex"
DevEnum == Dev = "EnumEarlyReturn"

\* the kinds a deviation can show on (the deviation runs explore only these)
DevKinds ==
    CASE Dev = "AliasDefaults" -> {"objstruct", "objnest"}
      [] Dev = "LazyUnsync" -> {"units", "units0", "objmap", "objstruct"}
      [] Dev = "CollideEither" -> {"mapcoll"}
      [] Dev \in {"StripInPlace", "StripRestore"} -> {"oneof"}
      [] Dev = "DirtyScratch" -> {"objdep"}
      [] Dev = "SharedMarks" -> {"chain"}
      [] Dev = "SharedInProgress" -> {"compat2"}
      [] Dev = "StaleMemo" -> {"units", "units0"}
      [] Dev = "SharedError" -> {"disabled", "patnil"}
      [] Dev = "CacheEmptyUnsync" -> {"emptydef"}
      [] Dev = "SortInPlace" -> {"objdep"}
      [] Dev = "ConvertInPlace" -> {"anylist"}
      [] Dev = "HideRestore" -> {"oneof"}
      [] Dev = "EarlyExitWalk" -> {"objreq"}
      [] Dev = "LastKeyDecides" -> {"enum"}
      [] Dev = "MemoRootUnsync" -> {"objmap", "steps"}
      [] Dev = "ReuseInputContainer" -> {"listarg"}
      [] Dev = "ReleaseOutsideLock" -> {"steps"}
      [] Dev = "NoStepMutex" -> {"steps"}
      [] Dev = "EnumEarlyReturn" -> {"enum"}
      [] OTHER -> {}

AllIdle == \A g \in G : pc[g] = "idle"

\* deterministic enumeration of a small set of result records (accepting first, then by n)
RECURSIVE SetToSeqSorted(_)
SetToSeqSorted(S) ==
    IF S = {} THEN <<>>
    ELSE LET x == CHOOSE y \in S : \A z \in S : (z.ok => y.ok) /\ ((z.ok = y.ok) => y.n <= z.n)
         IN <<x>> \o SetToSeqSorted(S \ {x})

WithExp(e) == [op |-> e.op, arg |-> e.arg, exp |-> SetToSeqSorted(PureSet(inst, e.op, e.arg))]
PureList(h) == [i \in DOMAIN h |-> WithExp(h[i])]

\* C12: one line per completed history
ExportHist ==
    (AllIdle /\ hist # <<>>) =>
        Emit([kind |-> inst.kind, origin |-> inst.origin, what |-> "hist", calls |-> PureList(hist)])

\* C13: which operations the goroutines issue, in program order, on the fresh / rebuilt instance (the
\* completion order of the calls is not part of the schedule: the orchestrator de-duplicates)
CallsOf(g) == SelectSeq(hist, LAMBDA e : e.g = g)
ExportSched ==
    (AllIdle /\ \A g \in G : ncalls[g] = MaxCalls) =>
        Emit([kind |-> inst.kind, origin |-> inst.origin, shared |-> inst.shared, what |-> "sched",
              sched |-> [g \in G |-> PureList(CallsOf(g))]])

\* ------------------------------------------------------------------ witnesses of a deviation
CallsInFlight == [g \in G |-> [op |-> cur[g].op, arg |-> cur[g].arg, pc |-> pc[g], acc |-> Acc(g)]]
Wit(what) == Emit([kind |-> inst.kind, origin |-> inst.origin, shared |-> inst.shared, what |-> what, dev |-> Dev,
                   calls |-> PureList(hist), inflight |-> CallsInFlight,
                   hist |-> [i \in DOMAIN hist |-> [g |-> hist[i].g, res |-> hist[i].res]]])
WitnessRace == Race => Wit("race")
WitnessHistory == ~HistoryFree => Wit("history")
WitnessDeterministic == ~Deterministic => Wit("nondeterministic")
WitnessCache == ~CacheIntegrity => Wit("cache")
WitnessArgument == ~ArgumentPreserved => Wit("argument")
WitnessInput == ~InputStable => Wit("input")
WitnessDescribe == ~DescribeUnchanged => Wit("describe")
WitnessInitOnce == ~InitOnce => Wit("initonce")
=============================================================================
